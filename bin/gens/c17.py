"""C17 — transport adapters deliver the byte stream unchanged."""
from .common import hx, rbytes, budget

HARNESS = "c17"
CONST_GROUPS = ["listener", "websocket"]
STATELESS = True
RULE = ("one case = one operation line. sniff <chunks> <tailErr> <matcher sets> <reads> <drain>: a client stream cut into "
        "the given socket reads (incl. empty reads, 1-byte reads, EOF delivered with the last data) goes through the "
        "listener's real serve loop with the given matcher sets (MatchHTTP, MatchAny, MatchPrefix incl. no / empty / "
        "overlapping strings, recording matchers reading arbitrary amounts), then is read back with the listed buffer "
        "sizes and drained; wq <ops>: Write under a chosen rate-limiter verdict / Flush sequences on the real Conn over a "
        "recording socket; wsr <frames> <reads> <drain>: websocket messages (binary, text, control, empty; inner reader "
        "chunked arbitrarily, EOF with or after the last data) read through the real transport; wsw: one message per "
        "Write. wqc <a> <b> <limited>: a is queued, a flush stalls inside the socket's Write (slow peer), another goroutine writes b meanwhile: the peer receives a then b. non-trivial = distinct line where data is delivered, i.e. the answer is not bad-op / panic / a refusal")
TRUSTED = ["kelindar/rate: the limiter's verdict is an arbitrary Boolean per Write in the theorems; the harness drives the real limiter into either verdict through its public Limit/Undo",
           "gorilla/websocket below NextReader / NextWriter (a fake frame source with gorilla's discard-the-rest semantics stands in)",
           "bytes.Buffer, io.ReadFull (transcribed), the patricia tree of matcher.go is modelled by its specification (starts with one of the strings) and tested differentially"]
ASSUMPTIONS = ["the socket's Write accepts the whole slice (net.Conn reports a short write only together with a fatal error)",
               "the listener protocol of Listener.serve: reads happen only inside startSniffing..doneSniffing phases and after the last doneSniffing; sniffing is never restarted once the connection was handed over",
               "concurrent Write/Flush interleavings are C10's concern; here every step is sequential"]
CLAIM = {
    "text": "Lean 4 theorems over the executable model of sniffer.Read/reset + Listener.serve + the matchers, the Conn write queue and the websocket transport: for every stream, every partition into socket reads (incl. empty reads), every matcher set (every sequence of sniffing phases reading arbitrary amounts with arbitrary buffers), and every later sequence of buffer sizes, each phase sees a prefix of the stream and delivered ++ pending ++ unread = the stream (so a reader that drains gets exactly the stream, once, in order); the slice expression of the replay never goes out of range; errors are never reported before the last byte unless the flagged branch (source returned data together with an error while sniffing) was taken; socket ++ queue = everything written for every sequence of Write/limiter verdict/Flush, and = everything after a final flush; websocket Read delivers exactly the concatenated payloads of the data messages for every framing, chunking and buffer size; websocket Write sends one binary message per call. Tied to /repo by regenerated constants (HTTP method table, websocket opcodes) and a differential run of the real listener / websocket code over fake sockets against the compiled model.",
    "note": "Trusted: Lean kernel; harness and fake sockets; kelindar/rate (arbitrary verdict); gorilla/websocket below NextReader/NextWriter; patricia tree tied by test, not proof. One recorded finding (error replayed early after a data+error read while sniffing; reachable only through crypto/tls with a stream of at most 8 bytes).",
    "technique": "Lean 4 proof (state-machine invariants by induction over arbitrary read/write sequences) + differential correspondence check model vs. real Go code",
}


def nontrivial(r):
    return r["I"] not in ("err", "", "panic", "bad-op") and "closed=" not in r["I"]


HTTP = [b"GET / HTTP/1.1\r\nHost: x\r\nUpgrade: websocket\r\n\r\n", b"OPTIONS * HTTP/1.1\r\n\r\n", b"CONNECT a:1 HTTP/1.1\r\n\r\n",
        b"POST /keygen HTTP/1.1\r\n\r\n", b"DELETE /x", b"GE", b"G", b"CONNECT", b"OPTIONS", b"PATCH", b"PU"]
MQTT = [bytes.fromhex("101000044d5154540402003c000474657374"), bytes.fromhex("c000"), bytes.fromhex("e000"),
        bytes.fromhex("101000044d5154540402003c000474657374") + bytes.fromhex("8208000100032f612f00") + bytes.fromhex("c000")]


def stream(rng, tier):
    k = rng.randrange(10)
    if k < 3:
        s = rng.choice(HTTP)
        if rng.randrange(3) == 0:
            s = s + rbytes(rng, rng.choice([0, 1, 7, 30]))
        return s
    if k < 6:
        s = rng.choice(MQTT)
        if rng.randrange(3) == 0:
            s = s + rbytes(rng, rng.choice([1, 2, 40]))
        return s
    n = rng.choice([0, 0, 1, 2, 3, 7, 8, 9, 10, 16, 17, 33, 100])
    if rng.randrange(25) == 0:
        n = rng.choice([1000, 1024, 1500]) if tier != "thorough" else rng.choice([1000, 1024, 4096, 5000])
    return rbytes(rng, n)


def cut(rng, s):
    """a random partition of s into reads, with empty reads in between"""
    mode = rng.randrange(6)
    out = []
    i = 0
    if mode == 0:
        out = [s] if s else []
    elif mode == 1 and len(s) <= 64:
        out = [s[j:j + 1] for j in range(len(s))]
    else:
        while i < len(s):
            n = rng.choice([1, 1, 2, 3, 4, 7, 8, 9, 16, 64, 1000])
            out.append(s[i:i + n])
            i += n
    if rng.randrange(4) == 0:
        for _ in range(rng.choice([1, 1, 2])):
            out.insert(rng.randrange(len(out) + 1), b"")
    return out


def lst(items, sep):
    return sep.join(items) if items else "none"


SIZES = [0, 1, 1, 2, 3, 4, 7, 8, 9, 10, 16, 64, 4096]


def sizes(rng, kmax=6):
    return [rng.choice(SIZES) for _ in range(rng.randrange(kmax))]


def matcher(rng, s, want=None):
    """a matcher description; want = True/False asks for one that (probably) matches / does not"""
    k = rng.randrange(10)
    if k == 0 and want is not False:
        return "any"
    if k == 1:
        return "http"
    if k < 6:
        strs = []
        for _ in range(rng.choice([0, 1, 1, 2, 3])):
            r = rng.randrange(6)
            if r == 0:
                strs.append(b"")
            elif r < 3 and s:
                strs.append(s[:rng.choice([1, 2, 3, 4, 8, len(s)])] if want is not False else s[:rng.choice([1, 2, 3])] + b"\x00\xff")
            elif r == 3 and s:
                p = bytearray(s[:rng.choice([1, 2, 4, 9])]); p[-1] ^= 1 << rng.randrange(8); strs.append(bytes(p))
            elif r == 4:
                strs.append(s + b"x")            # longer than the stream
            else:
                strs.append(rbytes(rng, rng.choice([1, 2, 5])))
        if want is False:
            strs = [x for x in strs if x and not s.startswith(x)]
            if not strs:
                strs = [b"\xfe\xfd\xfc"] if not s.startswith(b"\xfe\xfd\xfc") else [b"\x01\x01"]
        return "p:" + lst([hx(x) for x in strs], ";")
    v = rng.randrange(2) if want is None else (1 if want else 0)
    return "r:%s:%d" % (lst([str(n) for n in sizes(rng, 5)], ";"), v)


def sniff(rng, tier):
    s = stream(rng, tier)
    chunks = cut(rng, s)
    tail = 1 if (chunks and rng.randrange(8) == 0) else 0
    k = rng.randrange(10)
    if k < 3:
        sets = "http/any"                      # the broker's configuration
    else:
        nsets = rng.choice([1, 1, 2, 3])
        ss = []
        for i in range(nsets):
            ms = []
            for j in range(rng.choice([1, 1, 2, 3])):
                last = (i == nsets - 1 and j == 0)
                ms.append(matcher(rng, s, want=(None if rng.randrange(3) else (True if last else False))))
            ss.append("+".join(ms))
        if rng.randrange(3):
            ss.append("any" if rng.randrange(2) else "r:%s:1" % lst([str(n) for n in sizes(rng, 4)], ";"))
        sets = "/".join(ss)
    after = sizes(rng, 6)
    drain = rng.choice([1, 2, 3, 8, 64, 4096]) if len(s) <= 200 else rng.choice([64, 100, 4096])
    return "sniff %s %d %s %s %d" % (lst([hx(c) for c in chunks], ","), tail, sets, lst([str(n) for n in after], ","), drain)


def wq(rng, tier):
    ops = []
    for _ in range(rng.choice([0, 1, 2, 3, 5, 8, 12])):
        r = rng.randrange(10)
        if r < 2:
            ops.append("f")
        else:
            p = rbytes(rng, rng.choice([0, 1, 2, 2, 5, 20, 70]))
            lim = rng.randrange(2) if rng.randrange(4) else rng.choice([0, 1])
            ops.append("w%d:%s" % (lim, hx(p)))
    return "wq " + lst(ops, ",")


def wsr(rng, tier):
    frames = []
    for _ in range(rng.choice([0, 1, 1, 2, 3, 5, 8])):
        r = rng.randrange(10)
        if r < 2:
            op = rng.choice([8, 9, 10, 0, 3])      # control / continuation / reserved
        else:
            op = rng.choice([1, 2, 2, 2])
        body = rng.choice(MQTT) if rng.randrange(3) == 0 else rbytes(rng, rng.choice([0, 0, 1, 2, 3, 8, 20, 100]))
        if tier == "thorough" and rng.randrange(40) == 0:
            body = rbytes(rng, 3000)
        chunks = cut(rng, body)
        tail = "!" if (chunks and rng.randrange(4) == 0) else ""
        frames.append("%d:%s%s" % (op, lst([hx(c) for c in chunks], "."), tail))
    after = sizes(rng, 8)
    drain = rng.choice([1, 2, 3, 8, 64, 4096])
    return "wsr %s %s %d" % (lst(frames, ","), lst([str(n) for n in after], ","), drain)


def wsw(rng, tier):
    ps = [rbytes(rng, rng.choice([0, 1, 2, 14, 100])) for _ in range(rng.choice([0, 1, 2, 3, 6]))]
    return "wsw " + lst([hx(p) for p in ps], ",")


FIXED = [
    # the broker's configuration on an MQTT CONNECT and on an HTTP upgrade, byte-wise reads
    "sniff 10,10,00,04,4d,51,54,54,04,02,00,3c,00,04,74,65,73,74 0 http/any 1,1,2,0,3 4",
    "sniff 474554202f20485454502f312e310d0a0d0a 0 http/any 3,5 7",
    # replay boundary: two phases sniff 8 and 3 bytes, reads straddle the end of the buffer
    "sniff 0102030405,060708090a0b 0 r:8:0/r:3:0/any 2,7,1 3",
    "sniff 0102030405,060708090a0b 0 r:3;3;3:0+r:100:0/r:1:1 7,1,1,1 100",
    # nothing matches: closed
    "sniff 0102 0 p:ff/r:1:0 none 1",
    # empty stream
    "sniff none 0 http/any 0,1 1",
    # EOF together with the last data while sniffing (what crypto/tls does on close_notify)
    "sniff 010203 1 r:8:1 2 8",
    "sniff 010203 1 r:8:1 none 8",
    "sniff 0102,03 1 http/any 1 8",
    "wq w0:01,w1:02,w1:03,w0:04,f,w1:05,f,f,w0:-",
    "wq w1:-,w0:-,w1:0102,f",
    "wsr 2:0102.03,9:-,2:none,1:04!,8:03e8,2:05.06.-!,2:-.07 1,1,0,5 2",
    "wsr none none 1",
    "wsw 01,-,0203",
]


def gen(rng, tier):
    ops = list(FIXED)
    n = budget(tier, 1000, 40000)
    for i in range(n):
        ops.append(sniff(rng, tier))
    for i in range(budget(tier, 300, 10000)):
        ops.append(wq(rng, tier))
    for i in range(budget(tier, 12, 300)):
        # a write arriving while a flush is stalled inside the socket's Write (slow peer)
        ops.append("wqc %s %s %d" % (hx(rbytes(rng, rng.choice([1, 8, 8, 40]))), hx(rbytes(rng, rng.choice([1, 8, 8, 40, 200]))), rng.randrange(2)))
    for i in range(budget(tier, 500, 15000)):
        ops.append(wsr(rng, tier))
    for i in range(budget(tier, 60, 1500)):
        ops.append(wsw(rng, tier))
    return ops
