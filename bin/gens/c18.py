"""C18 — presence reports who is subscribed."""
from .common import hx, rbytes, budget
from .brokergen import *
from . import brokergen

HARNESS = "broker"
CONST_GROUPS = ["security", "message", "cipher", "license"]
RULE = ("one case = one broker session (default matcher): several named clients subscribing, unsubscribing, disconnecting and "
        "issuing presence requests (status and/or changes=true/false, on exact and parent channels, with keys with and without "
        "the presence permission); the status lists and the subscribe / unsubscribe notifications every watcher receives are "
        "compared after every request; burst sessions: 1-8 connections send 130-400 SUBSCRIBE/UNSUBSCRIBE pairs each, back to back and all "
        "at once, over buffered (TCP-like) or synchronous pipes, with a slow watcher or with only 3-6 processors, so that the presence "
        "queue (capacity 100) runs full: every watcher must see every transition once and in its connection's order (notifications "
        "are grouped per source connection for the comparison). non-trivial = distinct (op, answer)")
TRUSTED = ["the broker's own publishes on stats/<node>/ (monitoring sink 'self', once a second, into the owner's contract) are not answers to a request and are dropped from the observables",
           "the presence notification queue is drained before the next request (sequential histories); notification payloads are compared after dropping the timestamp",
           "cluster-wide presence (survey of other brokers) is empty: single broker"]
ASSUMPTIONS = ["share groups are excluded (membership of a lookup is random by design)", "checked with the default (emitter) matcher; under the mqtt matcher notifications are matched with the same-depth rule (documented in DESIGN.md)"]
CLAIM = {
    "text": "Lean 4 theorems over the broker model for every request history and authorizer: a presence status request lists exactly the live connections in the lookup of the channel with their usernames (status_exact); a watcher of a channel receives exactly one 'subscribe' per transition of a (connection, filter at or below the channel) pair into the subscription set and one 'unsubscribe' per transition out (unsubscribe or close), none after cancelling (changes_exact). Tied to /repo by the differential broker run. At history level (status_history, notify_history): after any well-formed history the answer to a status request and the receivers of a notification are computed from the specification set A of acknowledged subscriptions alone.",
    "note": "Trusted: Lean kernel; harness (quiescence polling of the presence queue).",
    "technique": "Lean 4 proof (presence as a function of the subscription set of the broker model) + differential correspondence check model vs. real broker",
}


def nontrivial(r):
    return r["I"] not in ("-", "ok", "")


def case_key(r):
    return r["op"].split(" ", 2)[0] + "|" + r["I"]


def session(rng):
    words = WORDS if rng.randrange(4) else ODD_WORDS      # channels whose levels are named like the broker's own channels
    chan = lambda r, **kw: brokergen.chan(r, words=words, **kw)
    s = Session(rng, mode="emitter")
    s.key("KA", R | W | P)
    s.key("KN", R | W)             # no presence permission
    s.key("KX", R | P | E)         # extendable
    for i in range(rng.choice([2, 3, 4])):
        s.conn("c%d" % (i + 1), user=rng.choice([b"", b"alice", b"bob%d" % i]))
    subs = []
    for _ in range(rng.choice([10, 25, 45])):
        if not s.clients:
            break
        c = rng.choice(s.clients)
        r = rng.randrange(12)
        if r < 3:
            ch = chan(rng, wild=rng.randrange(5) == 0)
            s.sub(c, "KA", ch)
            subs.append((c, ch))
        elif r < 5:
            if subs and rng.randrange(4):
                c2, ch = rng.choice(subs)
                s.unsub(c2 if c2 in s.clients else c, "KA", ch)
            else:
                s.unsub(c, "KA", chan(rng))
        elif r < 9:
            ch = chan(rng, depth=rng.choice([1, 1, 2]))
            if subs and rng.randrange(2):
                ch = rng.choice(subs)[1]
                if rng.randrange(2):
                    ch = ch.split(b"/")[0] + b"/"
            if rng.randrange(6) == 0:
                ch = ch.rstrip(b"/")                    # no trailing slash: the service adds it
            k = rng.choice(["KA", "KA", "KA", "KN", "KX", "-"])
            s.presence(c, k, ch, status=rng.randrange(4) != 0, changes=rng.choice([None, True, True, False]))
        elif r == 9:
            s.pub(c, "KA", chan(rng), b"p")
        elif r == 10 and len(s.clients) > 1:
            s.close(c)
        else:
            s.dump()
    s.dump()
    return s.ops


def burst_session(rng):
    """several connections flap on the watched channel at the same time while the presence queue (capacity 100,
    one dispatcher) runs full; every transition must still be reported, in the order its connection made it"""
    s = Session(rng, mode="emitter")
    s.key("KA", R | W | P)
    # buffered transport: the broker's writes return at once (a TCP socket with room in its buffer), so a
    # connection's read loop reaches its next packet without waiting for the client to read the reply
    buffered = rng.randrange(6) != 0
    if buffered:
        s.ops.append("transport buffered")
    s.conn("w1")
    if rng.randrange(2):
        s.conn("w2")
    k = rng.choice([1, 4, 6, 6, 8])
    for i in range(k):
        s.conn("c%d" % (i + 1), user=rng.choice([b"", b"alice", b"bob%d" % i]))
    ch = chan(rng, depth=rng.choice([1, 2]))
    for w in [x for x in s.clients if x.startswith("w")]:
        s.presence(w, "KA", ch, status=False, changes=True)
    n = rng.choice([130, 300, 400, 400])
    # schedule variation: 0 = as is, 1 = the watcher stops reading until the queue is saturated (synchronous pipes only),
    # pN = only N processors while the burst runs (goroutines the broker starts wait in a run queue)
    mode = "1" if not buffered and (k == 1 or rng.randrange(3) == 0) else rng.choice(["0", "p3", "p3", "p4", "p4", "p6"])
    s.ops.append("burst %s %d %d KA %s w1 %s" % (mode, n, 1000, hx(b"/" + ch),
                                                 ",".join(x for x in s.clients if x.startswith("c"))))
    s.presence("w1", "KA", ch, status=True, changes=None)
    s.dump()
    return s.ops


def gen(rng, tier):
    ops = []
    for _ in range(budget(tier, 8, 120)):
        ops += burst_session(rng)
    for _ in range(budget(tier, 40, 1200)):
        ops += session(rng)
    return ops
