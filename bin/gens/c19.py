"""C19 — message ids and frames encode losslessly; peer forwarding drops nothing."""
from .common import hx, rbytes, boundary_bytes, budget

HARNESS = "c19"
CONST_GROUPS = ["message", "cluster"]
RULE = ("cases: id <ssid> (NewID with the clock second, sequence number and process nonce reported by a hook), idseq "
        "(consecutive ids sort descending and are distinct, incl. across the 2^32 sequence wrap), idconc (concurrent "
        "creation), settime over the supported time range, msg / frame (Encode, inner bytes below snappy, Decode), split "
        "<max> <sizes> (boundary sizes around the bound), and peer-queue sessions reset / psend / pflush (incl. inactive "
        "peer, empty flush, messages at or above the 10 MiB bound) and pconc (senders racing a flusher), pduring (a message handed over while a flush is writing to the transport, then only flushes). "
        "non-trivial = distinct line with a non-error answer")
TRUSTED = ["snappy (block format) and kelindar/binary's reflection plumbing are exercised, not modelled: the model starts at the uvarint/bytes layout written by messageCodec",
           "time.Now, crypto/rand (process nonce) and the atomic sequence counter are inputs reported by a hook"]
ASSUMPTIONS = ["goroutine interleavings of Peer.Send vs processSendQueue are sampled (pconc), not enumerated; the theorem is about the lock-bracketed atomic steps"]
CLAIM = {
    "text": "Lean 4 theorems over the executable model of message ids, the message/frame binary layout, Frame.Split and the peer send queue: id field round trips, byte order of ids = (time desc, sequence desc), injectivity of ids, message and frame decode∘encode = id for every value, split soundness (no loss/reordering, bound respected), every queued message reaches the transport exactly once in order for any interleaving of send/flush steps when no single message reaches the bound. Tied to /repo by regenerated constants and a differential run against the real message and cluster.Peer code.",
    "note": "Trusted: Lean kernel; harness; snappy and kelindar/binary reflection (exercised); Go scheduler (sampled).",
    "technique": "Lean 4 proof (codec round-trip, order and queue invariants by induction) + differential correspondence check model vs. real Go code",
}


def nontrivial(r):
    return r["I"] not in ("err", "")


WORDS = [0, 1, 2, 0xFFFFFFFF, 0x80000000, 1815237614, 4285801373, 1480642916, 3869262148]


def ssid(rng, minlen=2):
    n = rng.choice([minlen, 2, 3, 4, 6])
    return ",".join(str(rng.choice(WORDS) if rng.randrange(3) == 0 else rng.getrandbits(32)) for _ in range(max(n, minlen)))


def blob(rng, big=False):
    n = rng.choice([0, 0, 1, 2, 16, 28, 127, 128, 129, 300])
    if big and rng.randrange(6) == 0:
        n = rng.choice([16383, 16384, 65536, 70000])
    return rbytes(rng, n) if n < 1000 else bytes([rng.getrandbits(8)]) * n


def msg(rng, big=False):
    ttl = rng.choice([0, 1, 127, 128, 16384, 0xFFFFFFFF, 0xFFFFFFFE, rng.getrandbits(32)])
    return "%s:%s:%s:%d" % (hx(blob(rng)), hx(blob(rng)), hx(blob(rng, big)), ttl)


def gen(rng, tier):
    n = budget(tier, 400, 20000)
    ops = []
    for i in range(n):
        ops.append("id " + ssid(rng))
        if i % 40 == 0:
            ops.append("id " + ("none" if rng.randrange(2) else str(rng.getrandbits(32))))   # short ssid: panics
        ops.append("msg " + msg(rng, True))
        k = rng.choice([0, 1, 1, 2, 3, 5, 130])
        ops.append("frame " + (",".join(msg(rng) for _ in range(k)) if k else "none"))
        # split: sizes around the bound
        mx = rng.choice([0, 1, 20, 21, 50, 100, 1000])
        sizes = [rng.choice([0, 1, mx // 2, max(0, mx - 21), max(0, mx - 20), max(0, mx - 19), mx, mx + 1, 5]) for _ in range(rng.choice([0, 1, 2, 3, 6]))]
        ops.append("split %d %s" % (mx, " ".join(map(str, sizes))))
        t = rng.choice([1514764800, 1514764801, 3029529600, 3029529599, 1600000000 + rng.getrandbits(28)])
        ops.append("settime %s %d" % (hx(rbytes(rng, rng.choice([16, 24, 28]))), t))
    for i in range(budget(tier, 6, 60)):
        ops.append("idseq %s %d" % (ssid(rng), rng.choice([2, 3, 50])))
    # sequence wrap-around: 2^32-2, 2^32-1, 0, 1 ...
    ops.append("idwrap 1,2,3 6 100")
    ops.append("idwrap 1,2,3 6 4294967292")     # 2^32-3 .. 2: the counter wraps inside one second
    ops.append("idconc %d %d" % (8, budget(tier, 2000, 100000)))
    # peer queue sessions
    for s in range(budget(tier, 40, 1500)):
        ops.append("reset")
        tag = 0
        big_session = (s % 13 == 5)
        for _ in range(rng.choice([1, 3, 6, 12])):
            r = rng.randrange(10)
            if r < 6:
                tag += 1
                size = rng.choice([0, 1, 10, 100, 5000])
                if big_session and rng.randrange(3) == 0:
                    size = rng.choice([3 * 1024 * 1024, 5 * 1024 * 1024, 6 * 1024 * 1024])
                ops.append("psend %d %d %d" % (0 if rng.randrange(8) == 0 else 1, tag, size))
            else:
                ops.append("pflush")
        ops.append("pflush")
        ops.append("pflush")
    # a single message at / above the 10 MiB bound (the latent branch of processSendQueue)
    for size in ([10485760 - 21, 10485760 - 20, 10485760] if tier != "thorough" else [10485760 - 21, 10485760 - 20, 10485760 - 19, 10485760, 11000000]):
        ops += ["reset", "psend 1 1 10", "psend 1 2 %d" % size, "psend 1 3 10", "pflush", "pflush"]
    ops.append("pconc 6 %d" % budget(tier, 2000, 50000))
    for k in (0, 1, 2, 3):
        ops.append("pduring %d" % k)
    return ops
