"""C04 — replicated cluster state converges regardless of delivery order (also serves C13a)."""
from .common import hx, rbytes, budget

HARNESS = "c04"
CONST_GROUPS = []
RULE = ("one case = one session: reset <3-5 replicas> <volatile|durable|mixed>, then a random schedule of clock / add / del "
        "(ties and out-of-order clocks), sync (full snapshot through Encode+DecodeState), relay of the returned delta "
        "(same object or re-encoded), inject (single-entry state with explicit, also negative or tying, times), get and "
        "dump on every replica; sessions end with an all-pairs exchange and a dump of every replica. "
        "non-trivial = distinct session with at least one non-nil delta")
TRUSTED = ["kelindar/binary + snappy state codec: identity on (key, add, del, payload), exercised on every sync / enc hop, not modelled",
           "buntdb (:memory:) as a key-value store; freecache as a map (entries never expire within a session)",
           "crdt.Now replaced by a scripted clock"]
ASSUMPTIONS = ["tombstone garbage collection after 6 h (durable backend) is outside the model's horizon",
               "payload convergence is not part of the property; payloads are still compared between model and code"]
CLAIM = {
    "text": "Lean 4 theorems over the executable model of the LWW maps, State and the durable read cache: merge is the pointwise maximum of add and remove times for every key (absent keys, ties, zero and negative incoming times), commutative / associative / idempotent at the level of get, any two delivery orders / groupings / duplications of the same updates converge, isAdded characterisation with add bias, cache coherence of the durable backend. Tied to /repo by a differential run of event.State / crdt.Volatile / crdt.Durable (scripted clock) against the compiled model.",
    "note": "Trusted: Lean kernel; harness; state byte codec (exercised, assumed identity); buntdb/freecache as maps.",
    "technique": "Lean 4 proof (semilattice laws and convergence by induction over delivery schedules) + differential correspondence check model vs. real Go code",
}


def nontrivial(r):
    return True


def case_key(r):
    return r["op"] + "|" + r["I"]


KEYS = [b"k1", b"k2", b"\x00\x00\x00\x00\x00\x00\x00\x01\x00\x00\x00\x00\x00\x00\x00\x02\x00\x00\x00\x05", b""]
SETS = ["sub", "ban", "conn"]


def gen(rng, tier):
    ops = []
    for s in range(budget(tier, 250, 12000)):
        n = rng.choice([3, 3, 4, 5])
        ops.append("reset %d %s" % (n, rng.choice(["v", "d", "m"])))
        clock = 1
        keys = rng.sample(KEYS, rng.choice([1, 2, 3]))
        for _ in range(rng.choice([5, 15, 30, 50])):
            r = rng.randrange(12)
            k = hx(rng.choice(keys))
            st = rng.choice(SETS) if rng.randrange(4) == 0 else "sub"
            rep = rng.randrange(n)
            if r in (1, 2) and rng.randrange(12) == 0:
                # a value that outgrows what the durable backend's read cache accepts for one entry (about 1000 bytes):
                # short value first, read, then the big one, read again
                clock += 1
                ops.append("clock %d" % clock)
                ops.append("add %d %s %s %s" % (rep, st, k, hx(rbytes(rng, 1))))
                ops.append("get %d %s %s" % (rep, st, k))
                clock += 1
                ops.append("clock %d" % clock)
                ops.append("del %d %s %s" % (rep, st, k))
                ops.append("get %d %s %s" % (rep, st, k))
                clock += 1
                ops.append("clock %d" % clock)
                ops.append("add %d %s %s %s" % (rep, st, k, hx(rbytes(rng, rng.choice([990, 1100, 1500, 5000])))))
                ops.append("get %d %s %s" % (rep, st, k))
                continue
            if r == 0:
                clock = max(0, clock + rng.choice([1, 1, 2, 5, -1, -3, 0]))
                ops.append("clock %d" % clock)
            elif r in (1, 2):
                ops.append("add %d %s %s %s" % (rep, st, k, hx(rbytes(rng, rng.choice([0, 1, 3])))))
            elif r == 3:
                ops.append("del %d %s %s" % (rep, st, k))
            elif r in (4, 5):
                ops.append("sync %d %d" % (rep, rng.randrange(n)))
            elif r in (6, 7):
                ops.append("relay %d %d %s" % (rep, rng.randrange(n), rng.choice(["obj", "enc"])))
            elif r == 8:
                a = rng.choice([0, 0, clock, clock + 1, max(0, clock - 1), 3, -2])
                d = rng.choice([0, 0, clock, clock + 1, max(0, clock - 1), 3, -2])
                ops.append("inject %d %s %s %d %d %s %s" % (rep, st, k, a, d, hx(rbytes(rng, rng.choice([0, 2]))), rng.choice(["obj", "enc"])))
            elif r == 9:
                ops.append("get %d %s %s" % (rep, st, k))
            elif r == 10:
                ops.append("dump %d" % rep)
            else:
                clock += 1
                ops.append("clock %d" % clock)
                ops.append(rng.choice(["add", "del"]) + " %d %s %s" % (rep, st, k) + (" " + hx(rbytes(rng, 1)) if ops[-1] == "" else ""))
                if ops[-1].startswith("add"):
                    ops[-1] += " " + hx(rbytes(rng, 1))
        # quiesce: everybody exchanges full snapshots twice, then all replicas are dumped
        for _ in range(2):
            for a in range(n):
                for b in range(n):
                    if a != b:
                        ops.append("sync %d %d" % (a, b))
        for a in range(n):
            for k in keys:
                ops.append("get %d sub %s" % (a, hx(k)))
            ops.append("dump %d" % a)
    return ops
