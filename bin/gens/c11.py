"""C11 — derived keys never exceed their parent or the request."""
from .common import hx, rbytes, budget
from .brokergen import *

HARNESS = "broker"
CONST_GROUPS = ["security", "message", "cipher", "license"]
RULE = ("one case = one broker session: keygen requests over every parent kind (master, extendable with several permission "
        "masks, ordinary, expired, foreign contract, foreign master), type strings over subsets of rwslpex and junk, ttl 0 / "
        "positive / negative, channels valid / invalid / wildcard / with '#/'; the minted key is decrypted and every field "
        "compared; also keygen.Service.CreateKey called directly, as the HTTP keygen page does (ckey) (salt free, expiry within a minute), then the new key is used (subscribe, publish, link with auto-subscribe, "
        "second-level extension) and the broker's answers compared. non-trivial = distinct (op, answer)")
TRUSTED = ["crypto/rand salt of minted keys is free; time.Now within a minute of the session start"]
ASSUMPTIONS = ["requests are issued one at a time"]
CLAIM = {
    "text": "Lean 4 theorems over the key-generation model: a created key never has the master bit, has exactly the requested permissions, the parent's contract / signature / master id, the target SetTarget(channel) and the requested expiry, and is refused unless the parent decrypts, is exactly master, unexpired and of the allowed contract (create_*); an extended key has permissions parent ∩ requested without extend, same contract / signature / master, target channel ++ connection id (++ '#/'), only if the parent authorizes Extend on the channel (extend_subset); an extendable key is refused by subscribe, publish, last will, presence and link auto-subscribe (extendable_unusable, on the broker model). Tied to /repo by the differential broker run of keygen requests and uses of the minted keys.",
    "note": "Trusted: Lean kernel; harness; random salt free.",
    "technique": "Lean 4 proof (bit-level subset theorems on createKey / extendKey) + differential correspondence check of keygen requests through a real broker",
}


def nontrivial(r):
    return r["I"] not in ("-", "ok", "")


def case_key(r):
    return r["op"].split(" ", 2)[0] + "|" + r["I"]


TYPES = [b"r", b"w", b"rw", b"rwslp", b"rwslpex", b"e", b"x", b"", b"RW", b"rl", b"wse", b"zz", b"re"]


def session(rng):
    s = Session(rng, mode="emitter")
    s.key("KM", 1)
    s.key("KME", 1, expires=s.now - 100000)         # expired master
    s.key("KMF", 1, contract=CONTRACT ^ 9)          # master of a foreign contract
    s.key("KMS", 1, sign=SIGN ^ 1)                  # master with a wrong signature
    s.key("KM3", 3)                                 # master bit plus read: not "exactly master"
    s.key("KX", R | W | E)                          # extendable
    s.key("KXL", R | L | E, b"a/#/")
    s.key("KXE", R | W | E, expires=s.now - 100000)
    s.key("KA", R | W)                              # ordinary: cannot mint
    s.conn("c1")
    s.conn("c2")
    minted = []
    for i in range(rng.choice([6, 12, 20])):
        c = rng.choice(s.clients)
        r = rng.randrange(10)
        if r < 6:
            parent = rng.choice(["KM", "KM", "KM", "KX", "KX", "KXL", "KME", "KMF", "KMS", "KM3", "KA", "KXE"] + minted[-2:])
            ch = rng.choice([chan(rng), chan(rng, wild=True), b"a/#/", b"a/b/#/", b"#/", b"a/b", b"", b"a//b/", b"+/", b"a/+/#/",
                             # levels that merely CONTAIN a wildcard character are ordinary levels for the key target
                             b"a/b#/", b"x#/", b"a/#b/", b"a/b+/", b"a/+b/x/", b"a/##/", b"a/b#/#/",
                             b"/".join([b"x"] * rng.choice([22, 23, 24])) + b"/"])
            ttl = rng.choice([0, 0, 600, 3600, -600, 2147483647, -2147483648])
            name = "N%d" % i
            s.ops.append("keygen %s %d %s %s %s %d %s" % (c, s.nextmid(), parent, hx(ch), hx(rng.choice(TYPES)), ttl, name))
            minted.append(name)
        elif r == 6:
            # the minting function called directly (HTTP keygen page): no request handler in front of it
            parent = rng.choice(["KM", "KM", "KME", "KME", "KMF", "KMS", "KM3", "KA", "KX", "KXE"] + minted[-1:])
            ch = rng.choice([chan(rng), b"a/#/", b"#/", b"a/b", b"", b"a/+/", b"a/b#/", b"x#/", b"a/+b/"])
            exp = rng.choice([0, 0, s.now + 600, s.now - 600, s.now + 86400 * 365])
            name = "N%d" % i
            s.ops.append("ckey %s %s %d %d %s" % (parent, hx(ch), rng.choice([R, R | W, R | W | S | L | P, 255, 1, R | E, 0]), exp, name))
            minted.append(name)
        elif minted:
            k = rng.choice(minted)
            ch = chan(rng)
            q = rng.randrange(4)
            # the key may not exist (a failed keygen): the harness and the driver then agree on a bad-key topic
            if q == 0:
                s.sub(c, k, ch)
            elif q == 1:
                s.pub(c, k, ch, b"m")
            elif q == 2:
                s.link(c, b"l%d" % (i % 10), k, ch, True)
            else:
                s.pub(c, k, ch + b"x/", b"m")
        else:
            s.sub(c, rng.choice(["KX", "KA"]), chan(rng))
    s.ops.append("saltspread c1 %s 12" % rng.choice(["KM", "KM", "KA", "KME"]))
    s.dump()
    return s.ops


def gen(rng, tier):
    ops = []
    for _ in range(budget(tier, 30, 800)):
        ops += session(rng)
    return ops
