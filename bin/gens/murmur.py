"""murmur3-32 as internal/security/hash.Of computes it (seed 37, byte-swapped result)"""
M = 0xFFFFFFFF

def rotl(x, r):
    return ((x << r) | (x >> (32 - r))) & M

def hash_of(data: bytes) -> int:
    h = 37
    n = len(data)
    i = 0
    while n - i >= 4:
        k = data[i] | data[i+1] << 8 | data[i+2] << 16 | data[i+3] << 24
        i += 4
        k = (k * 0xcc9e2d51) & M
        k = rotl(k, 15)
        k = (k * 0x1b873593) & M
        h ^= k
        h = rotl(h, 13)
        h = (h * 5 + 0xe6546b64) & M
    k = 0
    rem = n - i
    if rem >= 3:
        k ^= data[i+2] << 16
    if rem >= 2:
        k ^= data[i+1] << 8
    if rem >= 1:
        k ^= data[i]
        k = (k * 0xcc9e2d51) & M
        k = rotl(k, 15)
        k = (k * 0x1b873593) & M
        h ^= k
    h ^= n
    h ^= h >> 16
    h = (h * 0x85ebca6b) & M
    h ^= h >> 13
    h = (h * 0xc2b2ae35) & M
    h ^= h >> 16
    return ((h << 24) & M) | (((h >> 8) << 16) & 0xFF0000) | (((h >> 16) << 8) & 0xFF00) | (h >> 24)

def collision(prefix="s"):
    """two distinct short ids with equal hash (birthday search, about 80k tries)"""
    seen = {}
    i = 0
    while True:
        s = "%s%d" % (prefix, i)
        h = hash_of(s.encode())
        if h in seen:
            return seen[h], s
        seen[h] = s
        i += 1
