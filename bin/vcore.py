#!/usr/bin/env python3
"""Orchestrator core: builds the Lean project and the Go harness from /repo's working tree,
runs impl / model on the same operation lines, takes the three-way verdict, shrinks, writes
evidence.  Standard library only."""
import fcntl, hashlib, json, os, random, re, shutil, subprocess, sys, time

VERIF = os.path.dirname(os.path.dirname(os.path.abspath(__file__)))
REPO = os.environ.get("VERIF_REPO", "/repo")
LEAN = os.path.join(VERIF, "lean")
WORK = os.path.join(VERIF, ".work")
ALLOWED_AXIOMS = {"propext", "Classical.choice", "Quot.sound"}
FORBIDDEN = re.compile(r"\bsorry\b|\badmit\b|^axiom |native_decide|bv_decide|implemented_by|unsafe |maxHeartbeats 0", re.M)

GOENV = dict(os.environ)
GOENV.update({"GOFLAGS": "-mod=mod", "GOPROXY": "off"})
# the go command's module index ignores -overlay files mounted into the module cache (hooks/mod__*)
GOENV["GODEBUG"] = ",".join(x for x in (GOENV.get("GODEBUG", ""), "goindex=0") if x)
for k in ("GOTOOLCHAIN", "GOSUMDB"):
    # GOTOOLCHAIN=local / GOSUMDB=off break the switch to the cached go1.24 toolchain module
    GOENV.pop(k, None)


class Lock:
    def __init__(self, name):
        os.makedirs(WORK, exist_ok=True)
        self.path = os.path.join(WORK, name + ".lock")
    def __enter__(self):
        self.f = open(self.path, "w")
        fcntl.flock(self.f, fcntl.LOCK_EX)
    def __exit__(self, *a):
        fcntl.flock(self.f, fcntl.LOCK_UN)
        self.f.close()


def run(cmd, cwd=None, env=None, timeout=None, stdin=None):
    p = subprocess.run(cmd, cwd=cwd, env=env, stdout=subprocess.PIPE, stderr=subprocess.STDOUT,
                       timeout=timeout, stdin=stdin)
    return p.returncode, p.stdout.decode("utf-8", "replace")


class BuildError(Exception):
    def __init__(self, what, log):
        super().__init__(what)
        self.what, self.log = what, log


# ----------------------------------------------------------------------------- Go side

_MODDIR = {}


def module_dir(mod):
    """directory of a dependency of /repo (module cache), as the go command resolves it"""
    if mod not in _MODDIR:
        rc, out = run(["go", "list", "-m", "-f", "{{.Dir}}", mod], cwd=REPO, env=GOENV, timeout=300)
        if rc != 0 or not out.strip():
            raise BuildError("go list -m %s failed" % mod, out)
        _MODDIR[mod] = out.strip().splitlines()[-1]
    return _MODDIR[mod]


def overlay_map():
    """harness/<d>/*.go -> /repo/internal/zverif/<d>/ ; harness/hooks/<a__b__c>/*.go -> /repo/a/b/c/zz_*.go"""
    rep = {}
    h = os.path.join(VERIF, "harness")
    for d in sorted(os.listdir(h)):
        p = os.path.join(h, d)
        if not os.path.isdir(p):
            continue
        if d == "hooks":
            for pkg in sorted(os.listdir(p)):
                base = os.path.join(REPO, pkg.replace("__", "/"))
                if pkg.startswith("mod__"):
                    # hooks/mod__<module__path>: mounted into that dependency's directory in the module cache
                    base = module_dir(pkg[5:].replace("__", "/"))
                for f in sorted(os.listdir(os.path.join(p, pkg))):
                    if f.endswith(".go"):
                        rep[os.path.join(base, "zz_" + f)] = os.path.join(p, pkg, f)
        else:
            for root, _, files in os.walk(p):
                for f in files:
                    if f.endswith(".go"):
                        rel = os.path.relpath(os.path.join(root, f), h)
                        rep[os.path.join(REPO, "internal", "zverif", rel)] = os.path.join(root, f)
    return rep


CONST_MAIN = '''//go:build verif

package main

import (
	"fmt"
	"sort"

	pkg "github.com/emitter-io/emitter/%s"
)

func main() {
	m := pkg.VerifConsts()
	keys := make([]string, 0, len(m))
	for k := range m {
		keys = append(keys, k)
	}
	sort.Strings(keys)
	for _, k := range keys {
		fmt.Printf("%%s %%s\\n", k, m[k])
	}
}
'''

# consts group -> package path (relative to the module root) that carries VerifConsts()
CONST_GROUPS = {
    "cipher": "internal/security/cipher",
    "license": "internal/security/license",
    "mqtt": "internal/network/mqtt",
    "message": "internal/message",
    "security": "internal/security",
    "listener": "internal/network/listener",
    "storage": "internal/provider/storage",
    "facts": "internal/zverif/gofacts",
    "websocket": "internal/network/websocket",
    "cluster": "internal/service/cluster",
}


def write_overlay(groups):
    rep = overlay_map()
    gdir = os.path.join(WORK, "gen")
    for g in groups:
        d = os.path.join(gdir, "consts_" + g)
        os.makedirs(d, exist_ok=True)
        src = CONST_MAIN % CONST_GROUPS[g]
        p = os.path.join(d, "main.go")
        if not os.path.exists(p) or open(p).read() != src:
            open(p, "w").write(src)
        rep[os.path.join(REPO, "internal", "zverif", "consts_" + g, "main.go")] = p
    ov = os.path.join(WORK, "overlay.%d.json" % os.getpid())
    json.dump({"Replace": rep}, open(ov, "w"), indent=1)
    return ov


def go_build(ov, pkgdir, out):
    """build /repo/internal/zverif/<pkgdir> (overlaid) from the current working tree"""
    os.makedirs(os.path.dirname(out), exist_ok=True)
    if os.path.exists(out):
        os.remove(out)  # never run a stale binary
    rc, log = run(["go", "build", "-tags", "verif", "-overlay", ov, "-o", out, "./internal/zverif/" + pkgdir],
                  cwd=REPO, env=GOENV, timeout=1200)
    if rc != 0 or not os.path.exists(out):
        raise BuildError("go build %s failed" % pkgdir, log)


def lean_value(kind, val):
    if kind == "S":
        return "String", json.dumps(val, ensure_ascii=False)
    if kind == "N":
        return "Nat", val
    if kind == "I":
        return "Int", ("(%s)" % val if val.startswith("-") else val)
    if kind in ("U8", "U16", "U32", "U64"):
        return "UInt" + kind[1:], val
    if kind == "LB":   # list of bytes (from a string, given as comma separated numbers)
        return "List UInt8", "[" + ", ".join(x for x in val.split(",") if x) + "]"
    if kind == "LN":   # list of naturals
        return "List Nat", "[" + ", ".join(x for x in val.split(",") if x) + "]"
    if kind == "LS":   # list of strings, separated by \x1f
        return "List String", "[" + ", ".join(json.dumps(x) for x in val.split("\x1f") if x != "") + "]"
    raise ValueError(kind)


def regen_consts(ov, groups):
    """run the consts binaries and rewrite lean/Emitter/Generated/<Group>.lean when the content changed"""
    facts = {}
    for g in groups:
        out = os.path.join(WORK, "bin", "consts_" + g)
        go_build(ov, "consts_" + g, out)
        rc, txt = run([out], timeout=60)
        if rc != 0:
            raise BuildError("consts_%s failed" % g, txt)
        lines = ["-- regenerated from /repo by bin/vcore.py (consts group \"%s\"); do not edit" % g,
                 "namespace Emitter.Generated"]
        for ln in txt.splitlines():
            if not ln.strip():
                continue
            name, rest = ln.split(" ", 1)
            kind, val = rest.split(":", 1)
            ty, v = lean_value(kind, val)
            lines.append("def %s : %s := %s" % (name, ty, v))
            facts[name] = val
        lines.append("end Emitter.Generated")
        body = "\n".join(lines) + "\n"
        path = os.path.join(LEAN, "Emitter", "Generated", g.capitalize() + ".lean")
        if not os.path.exists(path) or open(path).read() != body:
            open(path, "w").write(body)
    return facts


# ----------------------------------------------------------------------------- go2lean (DESIGN §12.7)
# property -> modules of lean/Emitter/Generated/ written by tools/go2lean whose tie theorems (Props/Tie/*.lean) the
# property's Props file imports
GO2LEAN = {"C03": ["GoKey"], "C11": ["GoKey"], "C12": ["GoKey"], "C06": ["GoId"], "C19": ["GoId"], "C16": ["GoMqtt"]}


def regen_go2lean():
    """build tools/go2lean (default go, stdlib only) when its sources are newer than the binary, run it on REPO's
    working tree (it rewrites lean/Emitter/Generated/Go*.lean only when their content changes) and return
    {module: [(unit, lean name | None, refusal message | None)]}"""
    src = os.path.join(VERIF, "tools", "go2lean")
    out = os.path.join(WORK, "bin", "go2lean")
    os.makedirs(os.path.dirname(out), exist_ok=True)
    newest = max(os.path.getmtime(os.path.join(src, f)) for f in os.listdir(src) if f.endswith((".go", ".mod")))
    if not os.path.exists(out) or os.path.getmtime(out) < newest:
        rc, log = run(["go", "build", "-o", out, "."], cwd=src, env=GOENV, timeout=600)
        if rc != 0:
            raise BuildError("go build tools/go2lean failed", log)
    p = subprocess.run([out, REPO, os.path.join(src, "targets.txt"), os.path.join(LEAN, "Emitter", "Generated")],
                       stdout=subprocess.PIPE, stderr=subprocess.PIPE, timeout=120)
    if p.returncode != 0:
        raise BuildError("tools/go2lean failed", p.stderr.decode("utf-8", "replace"))
    res = {}
    for ln in p.stdout.decode("utf-8", "replace").splitlines():
        m = re.match(r"ok (\S+) (.*) -> (\S+)$", ln)
        if m:
            res.setdefault(m.group(1), []).append((m.group(2), m.group(3), None))
            continue
        m = re.match(r"refused (\S+) (.*?): (.*)$", ln)
        if m:
            res.setdefault(m.group(1), []).append((m.group(2), None, m.group(3)))
    return res


# ----------------------------------------------------------------------------- Lean side

def lake_build(targets):
    rc, log = run(["lake", "build"] + targets, cwd=LEAN, timeout=3600)
    return rc == 0, log


def driver_path():
    return os.path.join(LEAN, ".lake", "build", "bin", "driver")


def audit(prop):
    """run `#print axioms` on every property theorem listed in Audit/<prop>.lean"""
    path = os.path.join(LEAN, "Audit", prop + ".lean")
    names = re.findall(r"^#print axioms\s+(\S+)", open(path).read(), re.M)
    rc, out = run(["lake", "env", "lean", path], cwd=LEAN, timeout=1800)
    res = {}
    # output: 'X' depends on axioms: [a, b]   |   'X' does not depend on any axioms
    for m in re.finditer(r"'([^']+)' depends on axioms: \[([^\]]*)\]", out.replace("\n", " ")):
        res[m.group(1)] = set(a.strip() for a in m.group(2).split(",") if a.strip())
    for m in re.finditer(r"'([^']+)' does not depend on any axioms", out):
        res[m.group(1)] = set()
    ok, bad = [], []
    for n in names:
        full = [k for k in res if k == n or k.endswith("." + n)]
        if rc == 0 and full and res[full[0]] <= ALLOWED_AXIOMS:
            ok.append(n)
        else:
            bad.append((n, sorted(res[full[0]]) if full else "missing"))
    return names, ok, bad, out


def grep_forbidden(files):
    hits = []
    for f in files:
        txt = open(f).read()
        # drop comments
        txt2 = re.sub(r"/-.*?-/", lambda m: "\n" * m.group(0).count("\n"), txt, flags=re.S)
        txt2 = re.sub(r"--.*", "", txt2)
        for m in FORBIDDEN.finditer(txt2):
            hits.append("%s: %s" % (os.path.relpath(f, VERIF), m.group(0).strip()))
    return hits


def lean_closure(prop):
    """all project .lean files Props/<prop>.lean transitively imports"""
    seen, todo = set(), ["Emitter.Props." + prop]
    while todo:
        m = todo.pop()
        p = os.path.join(LEAN, *m.split(".")) + ".lean"
        if p in seen or not os.path.exists(p):
            continue
        seen.add(p)
        for imp in re.findall(r"^import\s+(\S+)", open(p).read(), re.M):
            if imp.startswith(("Emitter.", "Driver.", "Audit.")):
                todo.append(imp)
    return sorted(seen)


# ----------------------------------------------------------------------------- running

def split_trace(lines):
    """-> list of (op, impl) ; comment lines are skipped"""
    out = []
    for ln in lines:
        ln = ln.rstrip("\n")
        if not ln.strip() or ln.startswith("#"):
            continue
        if " => " in ln:
            op, impl = ln.split(" => ", 1)
        else:
            op, impl = ln, ""
        out.append((op, impl))
    return out



HANG_SEEN = [False]


def run_watched(cmd, env, progress_file, total, stall, rss_limit):
    """run the harness under a watchdog: killed when the whole run exceeds `total` seconds, when the trace file has not
    grown for `stall` seconds (an operation that hangs) or when the resident set passes `rss_limit` bytes (an operation
    that allocates without bound). -> (returncode, output, None | 'hang:…' | 'crash:memory…')"""
    logf = progress_file + ".log"
    killed = None
    with open(logf, "wb") as lf:
        p = subprocess.Popen(cmd, env=env, stdout=lf, stderr=subprocess.STDOUT)
        t0 = last_change = time.time()
        last_size = -1
        if HANG_SEEN[0]:
            # re-runs after a watchdog kill (shrinking, final replay) need not wait as long
            stall, rss_limit = min(stall, 8), min(rss_limit, 1 << 30)
        while p.poll() is None:
            time.sleep(0.05)
            now = time.time()
            try:
                size = os.path.getsize(progress_file)
            except OSError:
                size = 0
            if size != last_size:
                last_size, last_change = size, now
            rss = 0
            try:
                with open("/proc/%d/status" % p.pid) as f:
                    for ln in f:
                        if ln.startswith("VmRSS:"):
                            rss = int(ln.split()[1]) * 1024
                            break
            except OSError:
                pass
            if rss > rss_limit:
                killed = "crash:memory-runaway"
                HANG_SEEN[0] = True
            elif now - last_change > stall:
                killed = "hang:no-answer"
                HANG_SEEN[0] = True
            elif now - t0 > total:
                killed = "hang:run-exceeded-%ds" % total
            if killed:
                p.kill()
                p.wait()
                break
    with open(logf, "rb") as f:
        log = f.read().decode("utf-8", "replace")
    try:
        os.remove(logf)
    except OSError:
        pass
    rc = p.returncode if not killed else -9
    return rc, log, killed


def execute(prop_cfg, ops, tag="run"):
    """ops: list of op lines (one flat list; sessions are separated by 'reset' ops).
    returns list of dicts {op, I, M, S, F}.
    With prop_cfg["batch_sessions"] = n the sessions are run n at a time, each batch in a fresh harness (and driver)
    process: a broker.Service that was closed is not fully released by the Go runtime (timers and goroutines of the
    service keep its stores reachable), so thousands of sessions in one process would hit the watchdog's memory limit."""
    n = prop_cfg.get("batch_sessions") or 0
    if n > 0:
        chunks, cur, count = [], [], 0
        for o in ops:
            if o.startswith("reset") and cur:
                count += 1
                if count >= n:
                    chunks.append(cur)
                    cur, count = [], 0
            cur.append(o)
        if cur:
            chunks.append(cur)
        if len(chunks) > 1:
            import concurrent.futures
            jobs = max(1, int(os.environ.get("VERIF_JOBS", "6") or 6))
            with concurrent.futures.ThreadPoolExecutor(max_workers=jobs) as ex:
                parts = list(ex.map(lambda ic: execute_one(prop_cfg, ic[1], "%s-b%d" % (tag, ic[0])), enumerate(chunks)))
            res = []
            for p in parts:
                res += p
            return res
    return execute_one(prop_cfg, ops, tag)


def execute_one(prop_cfg, ops, tag="run"):
    d = os.path.join(WORK, prop_cfg["id"])
    os.makedirs(d, exist_ok=True)
    opsf = os.path.join(d, "%s.%d.ops" % (tag, os.getpid()))
    trf = os.path.join(d, "%s.%d.trace" % (tag, os.getpid()))
    mof = os.path.join(d, "%s.%d.model" % (tag, os.getpid()))
    open(opsf, "w").write("\n".join(ops) + "\n")
    env = dict(os.environ)
    env.setdefault("GOMEMLIMIT", "8GiB")
    rc, log, killed = run_watched([prop_cfg["harness_bin"], opsf, trf] + prop_cfg.get("harness_args", []), env, trf,
                                  total=prop_cfg.get("timeout", 3600), stall=prop_cfg.get("stall", 90),
                                  rss_limit=prop_cfg.get("rss_limit", 4 << 30))
    crashed = None
    if rc != 0:
        # the harness process died (fatal runtime error, os.Exit, kill) or was killed by the watchdog (no progress /
        # runaway memory): the op it was executing is the first one without an answer in the (line-flushed) trace
        done = []
        if os.path.exists(trf):
            with open(trf) as f:
                done = [l for l in f.read().split("\n") if l.strip() and not l.startswith("#") and " => " in l]
        real_ops = [o for o in ops if o.strip() and not o.startswith("#")]
        if len(done) >= len(real_ops):
            raise BuildError("harness %s exited with %d" % (prop_cfg["harness"], rc), log[-4000:])
        why = [l for l in log.splitlines() if l.startswith(("fatal error", "panic:", "signal:"))]
        crashed = killed or ("crash:" + (why[0][:120].replace(" ", "_") if why else "exit-%d" % rc))
        with open(trf, "w") as f:
            f.write("\n".join(done + ["%s => %s" % (real_ops[len(done)], crashed)]) + "\n")
    with open(trf) as f:
        tr = split_trace(f.readlines())
    with open(trf, "rb") as f:
        p = subprocess.run([driver_path(), prop_cfg["id"]], stdin=f, stdout=open(mof, "wb"), stderr=subprocess.PIPE, timeout=3600)
    if p.returncode != 0:
        raise BuildError("driver exited with %d" % p.returncode, p.stderr.decode()[-4000:])
    mo = [l.rstrip("\n") for l in open(mof) if l.rstrip("\n") != "#"]
    if len(mo) != len(tr):
        raise BuildError("driver produced %d lines for %d ops" % (len(mo), len(tr)), "")
    res = []
    for (op, impl), ml in zip(tr, mo):
        parts = ml.split("\t")
        while len(parts) < 3:
            parts.append("-")
        M, S, F = parts[0], parts[1], parts[2]
        if S == "=":
            S = M
        res.append({"op": op, "I": impl, "M": M, "S": S, "F": F})
    for f in (opsf, trf, mof):
        try:
            os.remove(f)
        except OSError:
            pass
    return res


def classify(r, known_flags):
    """verdict of one line: ok | known:<flag> | viol-model (I=M≠S, unlisted) | viol-impl (I≠M, I≠S) | corr (I≠M, I=S)"""
    if r["M"] == "bad-op":
        return "corr"
    if r["I"] == r["M"]:
        if r["M"] == r["S"]:
            return "ok"
        flags = [f for f in r["F"].split(",") if f and f != "-"]
        if flags and all(f in known_flags for f in flags):
            return "known:" + ",".join(flags)
        return "viol-model"
    if r["I"] != r["S"]:
        return "viol-impl"
    return "corr"


def sessions_of(ops):
    """split a flat op list into sessions at 'reset' lines (the reset line starts a session)"""
    out, cur = [], []
    for o in ops:
        if o.split(" ")[0] == "reset" and cur:
            out.append(cur)
            cur = []
        cur.append(o)
    if cur:
        out.append(cur)
    return out


def load_known(prop):
    known, fixed = {}, []
    p = os.path.join(VERIF, "known_findings.txt")
    if os.path.exists(p):
        for ln in open(p):
            ln = ln.strip()
            if ln.startswith("known:") and ("property=%s " % prop) in ln:
                m = re.search(r"flag=(\S+)", ln)
                if m:
                    known[m.group(1)] = ln
            elif ln.startswith("fixed:") and ("property=%s " % prop) in ln:
                fixed.append(ln)
    return known, fixed


def shrink(prop_cfg, session, want, known_flags, budget=60, target_op=None, target_impl=None):
    """ddmin over the op lines of one session; `want` is the verdict class to preserve, on the
    same operation (first two words) as the line that failed originally"""
    def opkey(op):
        return " ".join(op.split(" ")[:2])
    def bad(cand):
        try:
            res = execute(prop_cfg, cand, tag="shrink")
        except Exception:
            return False
        # a harness panic caused by the removal of a needed op (nil client ...) is not the same failure
        return any(classify(r, known_flags).split(":")[0] == want and (target_op is None or opkey(r["op"]) == opkey(target_op))
                   and (r["I"] != "panic" or target_impl == "panic")
                   for r in res)
    t_end = time.time() + float(os.environ.get("VERIF_SHRINK_SECONDS", "45"))
    if os.environ.get("VERIF_NOSHRINK"):
        return list(session)
    head = []
    cur = list(session)
    if cur and cur[0].split(" ")[0] == "reset":
        head, cur = cur[:1], cur[1:]          # a session's reset line is never removed
    bad0 = bad
    bad = lambda cand: bad0(head + cand)
    n = 2
    steps = 0
    while len(cur) >= 2 and steps < budget and time.time() < t_end:
        chunk = max(1, len(cur) // n)
        reduced = False
        for i in range(0, len(cur), chunk):
            cand = cur[:i] + cur[i + chunk:]
            steps += 1
            if cand and bad(cand):
                cur = cand
                n = max(n - 1, 2)
                reduced = True
                break
            if steps >= budget:
                break
        if not reduced:
            if chunk == 1:
                break
            n = min(len(cur), n * 2)
    return head + cur


def write_replay(prop, kind, session_res, note=""):
    os.makedirs(os.path.join(VERIF, "replays"), exist_ok=True)
    h = hashlib.sha1(("\n".join(r["op"] for r in session_res) + note).encode()).hexdigest()[:10]
    path = os.path.join(VERIF, "replays", "%s-%s-%s.txt" % (prop, kind, h))
    with open(path, "w") as f:
        f.write("# property=%s kind=%s\n" % (prop, kind))
        for ln in note.splitlines():
            f.write("# %s\n" % ln)
        for r in session_res:
            f.write("%s => %s\n" % (r["op"], r["I"]))
            if r["I"] != r["M"] or r["M"] != r["S"]:
                f.write("#   impl : %s\n#   model: %s\n#   spec : %s\n#   flags: %s\n" % (r["I"], r["M"], r["S"], r["F"]))
    return path


# ---------------------------------------------------------------------------- pinned tree
PIN_FILE = os.path.join(VERIF, "pinned_tree.json")


def _anchor_dirs(prop):
    dirs = set()
    try:
        for l in open(os.path.join(VERIF, "properties.jsonl")):
            j = json.loads(l)
            if j.get("id") == prop:
                for f in j.get("anchors", {}).get("files", []):
                    dirs.add(f.rsplit("/", 1)[0])
    except (OSError, ValueError):
        pass
    return dirs


def changed_since_pin():
    """non-test Go files of REPO that differ from the pinned commit (working tree, index or later commits)"""
    try:
        pin = json.load(open(PIN_FILE)).get("commit", "")
    except (OSError, ValueError):
        return []
    if not pin:
        return []
    rc, out = run(["git", "-C", REPO, "diff", "--name-only", pin, "--"], timeout=60)
    if rc != 0:
        return []
    rc2, out2 = run(["git", "-C", REPO, "ls-files", "--others", "--exclude-standard"], timeout=60)
    files = set(out.split()) | (set(out2.split()) if rc2 == 0 else set())
    return sorted(f for f in files if f.endswith(".go") and not f.endswith("_test.go") and "/zverif/" not in f)


def relevant_changes(prop):
    dirs = _anchor_dirs(prop)
    out = []
    for f in changed_since_pin():
        d = f.rsplit("/", 1)[0]
        if any(d == a or d.startswith(a + "/") or a.startswith(d + "/") for a in dirs):
            out.append(f)
    return out
