#!/usr/bin/env python3
"""pin.py: record /repo's HEAD as the tree the correspondence was last validated against (pinned_tree.json).
Run after every fix: commit in /repo, together with a green run of all checks."""
import json, os, subprocess, sys
VERIF = os.path.dirname(os.path.dirname(os.path.abspath(__file__)))
repo = os.environ.get("VERIF_REPO", "/repo")
head = subprocess.check_output(["git", "-C", repo, "rev-parse", "HEAD"]).decode().strip()
json.dump({"commit": head, "note": "HEAD of /repo when the checks were last validated on the unchanged tree"},
          open(os.path.join(VERIF, "pinned_tree.json"), "w"), indent=1)
print("pinned", head)
