#!/usr/bin/env python3
"""./check <Cxx> quick|thorough   |   ./check <Cxx> --replay <file>"""
import importlib, json, os, random, sys, time, glob, collections
sys.path.insert(0, os.path.dirname(os.path.abspath(__file__)))
import vcore
from vcore import VERIF, LEAN, WORK, BuildError

TRUSTED_COMMON = [
    "Lean 4.33.0 kernel; axioms allowed: propext, Classical.choice, Quot.sound (audited per theorem with #print axioms)",
    "Lean compiler/runtime for the driver executable (oracle of the correspondence check only)",
    "bin/vcore.py + harness/ (Go): generators, canonicalisation, overlay build, consts extraction",
    "Go toolchain and runtime",
]


def load_cfg(prop):
    mod = importlib.import_module("gens." + prop.lower())
    cfg = {"id": prop, "mod": mod, "harness": mod.HARNESS,
           # one binary per run: concurrent checks that share a harness never replace each other's executable
           "harness_bin": os.path.join(WORK, "bin", "%s.%d" % (mod.HARNESS, os.getpid())),
           "harness_args": getattr(mod, "HARNESS_ARGS", []),
           "groups": getattr(mod, "CONST_GROUPS", []),
           "timeout": getattr(mod, "TIMEOUT", 3600), "stall": getattr(mod, "STALL", 90),
           "rss_limit": getattr(mod, "RSS_LIMIT", 4 << 30),
           "batch_sessions": getattr(mod, "BATCH_SESSIONS", 100 if mod.HARNESS in ("broker", "sec") else 0)}
    return cfg


def build_all(cfg, state):
    """returns list of (kind, what, log) problems; kind in {'fatal','proof'}"""
    problems = []
    prop = cfg["id"]
    with vcore.Lock("build"):
        ov = vcore.write_overlay(cfg["groups"])
        try:
            try:
                state["facts"] = vcore.regen_consts(ov, cfg["groups"])
                getattr(cfg["mod"], "regen_facts", lambda st: None)(state)
                if prop in vcore.GO2LEAN:
                    # regenerated definitions (DESIGN §12.7): a function the translator refuses is a broken tie
                    tr = vcore.regen_go2lean()
                    for m in vcore.GO2LEAN[prop]:
                        for unit, lean, why in tr.get(m, []):
                            if why is None:
                                state["facts"]["go2lean:%s:%s" % (m, unit)] = lean
                            else:
                                problems.append(("proof", "translator no longer covers %s (tools/go2lean, %s): %s" % (unit, m, why),
                                                 "error: tie broken: the Go function is outside the translated fragment; its tie theorem in "
                                                 "lean/Emitter/Props/Tie/ is no longer about the source\n" + why))
            except BuildError as e:
                problems.append(("fatal", "constants extraction (hook) no longer builds: " + e.what, e.log))
                return problems
            ok, log = vcore.lake_build(["driver"])
            if not ok:
                problems.append(("fatal", "lake build driver failed (model no longer type-checks against regenerated facts)", log))
                return problems
            ok, log = vcore.lake_build(["Emitter.Props." + prop])
            if not ok:
                problems.append(("proof", ("lake build Emitter.Props.%s failed %s" % (prop, broken_theorems(log))).strip(), log))
            else:
                names, okn, bad, out = vcore.audit(prop)
                state["obligations"], state["discharged"] = names, okn
                if bad:
                    problems.append(("proof", "axiom audit failed: %s" % bad, out))
                hits = vcore.grep_forbidden(vcore.lean_closure(prop))
                if hits:
                    problems.append(("proof", "forbidden construct in proof sources: %s" % hits, ""))
                if state.get("tier") == "thorough":
                    # independent re-check of the compiled property module (and everything it imports) by leanchecker
                    rc, out = vcore.run(["lake", "env", "leanchecker", "Emitter.Props." + prop], cwd=LEAN, timeout=1800)
                    state["leanchecker"] = "ok" if rc == 0 else "failed"
                    if rc != 0:
                        problems.append(("proof", "leanchecker rejects Emitter.Props.%s" % prop, out[-3000:]))
            try:
                vcore.go_build(ov, cfg["harness"], cfg["harness_bin"])
            except BuildError as e:
                problems.append(("fatal", "harness %s no longer builds against /repo: %s" % (cfg["harness"], e.what), e.log))
        finally:
            try:
                os.remove(ov)
            except OSError:
                pass
    return problems


def theorem_in_log(log):
    import re
    m = re.search(r"error: ([^\n]*)", log)
    return (broken_theorems(log) + " " + m.group(1)[:300]).strip() if m else ""


def broken_theorems(log):
    """names of the declarations that enclose the error positions of a lake log ("error: <file>:<line>:<col>: ...")"""
    import re
    names = []
    for m in re.finditer(r"error: (\S+\.lean):(\d+):\d+", log):
        try:
            src = open(os.path.join(LEAN, m.group(1))).read().split("\n")
        except OSError:
            continue
        for i in range(min(int(m.group(2)), len(src)) - 1, -1, -1):
            d = re.match(r"\s*(?:private |protected )?(?:theorem|lemma|def|example|instance)\s+(\S+)", src[i])
            if d:
                n = "%s (%s:%d)" % (d.group(1), m.group(1), i + 1)
                if n not in names:
                    names.append(n)
                break
    return ("broken: " + ", ".join(names[:6])) if names else ""


def main():
    if len(sys.argv) < 3:
        print(__doc__)
        return 2
    prop = sys.argv[1].upper()
    replay = None
    if sys.argv[2] == "--replay":
        replay = sys.argv[3]
        tier = "quick"
    else:
        tier = sys.argv[2]
    seed = int(os.environ.get("VERIF_SEED", "1") or 1)
    t0 = time.time()
    if not replay:
        for f in glob.glob(os.path.join(VERIF, "replays", prop + "-*.txt")):
            os.remove(f)      # replays of earlier runs of this property are stale
    cfg = load_cfg(prop)
    mod = cfg["mod"]
    known, fixed = vcore.load_known(prop)
    state = {"obligations": [], "discharged": [], "facts": {}, "tier": tier}
    violations = []          # (line to print)
    known_hit = collections.OrderedDict()
    problems = build_all(cfg, state)
    fatal = [p for p in problems if p[0] == "fatal"]
    proof_broken = [p for p in problems if p[0] == "proof"]

    results = []
    n_sessions = 0
    hist = collections.Counter()
    if not fatal:
        if replay:
            ops = [op for op, _ in vcore.split_trace(open(replay).readlines())]
            batches = [("replay", ops)]
        else:
            rng = random.Random(seed * 1000003 + (1 if tier == "thorough" else 0))
            batches = []
            for f in sorted(glob.glob(os.path.join(VERIF, "corpus", prop, "*.ops"))):
                batches.append(("corpus:" + os.path.basename(f), [op for op, _ in vcore.split_trace(open(f).readlines())]))
            # a broken proof turns the run into a search: thorough budget
            gtier = "thorough" if (proof_broken and tier == "quick") else tier
            # the source differs from the tree the correspondence was last validated against (pinned_tree.json)
            # in a package this property is anchored in: search harder (three times the quick budget)
            state["source_changes"] = vcore.relevant_changes(prop)
            if gtier == "quick" and state["source_changes"]:
                gtier = "deep"
            batches.append(("gen", mod.gen(rng, gtier)))
        for name, ops in batches:
            if not ops:
                continue
            try:
                res = vcore.execute(cfg, ops)
            except BuildError as e:
                fatal.append(("fatal", "%s: %s" % (name, e.what), e.log))
                break
            results.extend(res)

    # ------------------------------------------------------------------ verdicts
    seen_kinds = set()
    sess_res = []
    cur = []
    stateless = getattr(mod, "STATELESS", False)
    for r in results:
        if (stateless or r["op"].split(" ")[0] == "reset") and cur:
            sess_res.append(cur)
            cur = []
        cur.append(r)
    if cur:
        sess_res.append(cur)
    n_sessions = len(sess_res)
    for sr in sess_res:
        for r in sr:
            c = vcore.classify(r, known)
            hist[c.split(":")[0]] += 1
            if c == "ok":
                continue
            if c.startswith("known:"):
                for fl in c[6:].split(","):
                    known_hit.setdefault(fl, r)
                continue
            kind = c
            key = (kind, r["op"].split(" ")[0])
            if key in seen_kinds or len(violations) >= 5:
                continue
            seen_kinds.add(key)
            # shrink the session that shows it and write the replay
            ops = [x["op"] for x in sr]
            small = vcore.shrink(cfg, ops, kind, known, target_op=r["op"], target_impl=r["I"]) if len(ops) > 1 else ops
            try:
                small_res = vcore.execute(cfg, small, tag="final")
            except BuildError:
                small_res = sr
            recurs = any(vcore.classify(x, known) not in ("ok",) and not vcore.classify(x, known).startswith("known:") for x in small_res)
            note = {"viol-impl": "implementation differs from the model AND from the spec on this input",
                    "viol-model": "implementation and model agree, both differ from the spec (no known finding covers it)",
                    "corr": "correspondence broken: implementation differs from the model but meets the spec on every input searched"}[kind]
            for pb in proof_broken[:3]:
                # the proof stage of this run already failed: name the theorem next to the failing input
                note += "\nproof stage of this run: " + pb[1]
            if not recurs:
                # timing / schedule dependent: the re-run of the (shrunk) session agreed; report what was observed
                small_res = sr
                note += "\n(the deviation did not recur when the session was run again: the original, unshrunk trace of the run is given)"
            path = vcore.write_replay(prop, kind, small_res, note)
            if kind == "corr":
                violations.append(("corr", path))
            else:
                violations.append(("viol", path))

    lines = []
    real = [v for v in violations if v[0] == "viol"]
    corr = [v for v in violations if v[0] == "corr"]
    for _, p in real:
        lines.append("VIOLATION property=%s replay=%s" % (prop, p))
    if not real:
        # broken correspondence / proof / build without a failing input
        for _, p in corr[:1]:
            lines.append("VIOLATION property=%s replay=%s no-failing-input-found" % (prop, p))
        if not corr:
            for kind, what, log in (fatal + proof_broken)[:1]:
                note = what + "\n" + theorem_in_log(log) + "\n--- log tail ---\n" + log[-3000:]
                p = vcore.write_replay(prop, "unchecked", [], note)
                lines.append("VIOLATION property=%s replay=%s no-failing-input-found" % (prop, p))
    for fl, r in known_hit.items():
        lines.append("KNOWN-FINDING: property=%s %s" % (prop, known[fl].split(" ", 2)[2] if known[fl].count(" ") >= 2 else fl))
    for ln in lines:
        print(ln)

    # ------------------------------------------------------------------ evidence
    distinct = set()
    for r in results:
        if r["I"] == r["M"] and mod.nontrivial(r):
            distinct.add(mod.case_key(r) if hasattr(mod, "case_key") else r["op"])
    samples = []
    step = max(1, len(results) // 6)
    for r in results[::step][:6]:
        samples.append({"op": r["op"][:300], "impl": r["I"][:300], "model": r["M"][:300], "spec": r["S"][:300]})
    opmix = collections.Counter(r["op"].split(" ")[0] for r in results)
    outmix = collections.Counter((r["I"].split(" ")[0] if r["I"] else "") for r in results)
    nviol = len([l for l in lines if l.startswith("VIOLATION")])
    ev = {
        "property_id": prop, "tier": tier, "seed": seed, "level": "proof",
        "coverage": {
            "obligations": max(len(state["obligations"]), 0),
            "discharged": len(state["discharged"]),
            "checker_cmd": "cd lean && lake build Emitter.Props.%s && lake env lean Audit/%s.lean   (# then ./check %s %s for the correspondence)" % (prop, prop, prop, tier),
            "trusted_base": TRUSTED_COMMON + list(getattr(mod, "TRUSTED", [])),
            "theorems": state["obligations"],
            "evaluations": len(results),
            "distinct_nontrivial": len(distinct),
            "rule": mod.RULE,
            "samples": samples or [{"note": "no operation was executed (build problem)"}],
            "sessions": n_sessions,
            "traces_validated_against_impl": hist["ok"] + hist["known"],
            "op_histogram": dict(opmix),
            "impl_outcome_histogram": dict(outmix.most_common(12)),
            "verdict_histogram": dict(hist),
            "known_findings_hit": list(known_hit.keys()),
            "regenerated_facts": state["facts"],
            "build_problems": [p[1] for p in problems],
            "leanchecker": state.get("leanchecker", "not run (thorough tier only)"),
            "source_changes_since_pinned_tree": state.get("source_changes", []),
        },
        "assumptions": list(getattr(mod, "ASSUMPTIONS", [])),
        "wall_s": round(time.time() - t0, 2),
        "violations": nviol,
    }
    if ev["coverage"]["obligations"] == 0:
        # proof-level keys need >=1; fall back to the generic keys only
        del ev["coverage"]["obligations"], ev["coverage"]["discharged"]
    os.makedirs(os.path.join(VERIF, "evidence"), exist_ok=True)
    json.dump(ev, open(os.path.join(VERIF, "evidence", prop + ".json"), "w"), indent=1)
    if os.environ.get("VERIF_DEBUG"):
        shown = collections.Counter()
        for r in results:
            c = vcore.classify(r, known)
            if c != "ok" and shown[c] < 4:
                shown[c] += 1
                print("DEBUG %s\n  op   %s\n  impl %s\n  model %s\n  spec %s" % (c, r["op"][:200], r["I"][:200], r["M"][:200], r["S"][:200]))
    if nviol == 0:
        print("OK property=%s tier=%s ops=%d sessions=%d theorems=%d/%d wall=%.1fs" % (
            prop, tier, len(results), n_sessions, len(state["discharged"]), len(state["obligations"]), time.time() - t0))
    return 1 if nviol else 0


if __name__ == "__main__":
    import atexit

    def _cleanup():
        for f in glob.glob(os.path.join(WORK, "bin", "*.%d" % os.getpid())):
            try:
                os.remove(f)
            except OSError:
                pass
    atexit.register(_cleanup)
    sys.exit(main())
