#!/usr/bin/env python3
"""writes MANIFEST.json from bin/gens/*.py metadata (CLAIM dicts) so it is always valid"""
import importlib, json, os, sys
sys.path.insert(0, os.path.dirname(os.path.abspath(__file__)))
VERIF = os.path.dirname(os.path.dirname(os.path.abspath(__file__)))
ALL = ["C%02d" % i for i in range(1, 21)]
checks, na = [], []
for p in ALL:
    try:
        mod = importlib.import_module("gens." + p.lower())
    except ModuleNotFoundError:
        na.append({"property_id": p, "reason": "check under construction in this session (see DESIGN.md section 11); not yet claimed"})
        continue
    if not getattr(mod, "READY", True):
        na.append({"property_id": p, "reason": "check exists (model, harness, correspondence run) but its proofs are still being completed in this session; not yet claimed"})
        continue
    c = mod.CLAIM
    checks.append({
        "property_id": p,
        "quick_cmd": "./check %s quick" % p,
        "thorough_cmd": "./check %s thorough" % p,
        "evidence_file": "/verif/evidence/%s.json" % p,
        "replay_cmd_template": "./check %s --replay {path}" % p,
        "engine": "lean+goharness",
        "level_claimed": {"category": "proof", "text": c["text"], "design_ref": c.get("design_ref", "DESIGN.md section 5, " + p)},
        "level_note": c["note"],
        "technique": c["technique"],
    })
m = {
    "version": 1,
    "setup_cmd": "./setup.sh",
    "hooks": {
        "guard": "verif",
        "enable": "go build -tags verif -overlay <generated overlay.json> ./internal/zverif/<harness>  (bin/vcore.py: hook files live in /verif/harness/hooks and are mounted into /repo's packages at build time with -overlay; nothing guarded is committed in /repo)",
        "baseline_off_cmd": "cd /repo && GOFLAGS=-mod=mod GOPROXY=off go test -vet=off -count=1 ./...",
        "source_commits": [],
        "add_only": True,
    },
    "engines": [
        {"name": "lean+goharness", "path": "/verif/check",
         "serves_properties": [c["property_id"] for c in checks],
         "kind_free_text": "Lean 4 theorems about an executable model (lean/Emitter), tied to /repo on every run by (a) constants regenerated from the source by the Go compiler and re-checked by lake build and (b) a differential correspondence run of the real packages (Go harness mounted with -overlay) against the compiled Lean driver, with a three-way impl/model/spec verdict"}],
    "checks": checks,
    "notes": "One entry point: ./check Cxx quick|thorough|--replay f. known_findings.txt lists recorded findings and repaired defects.",
    "not_applicable": na,
}
json.dump(m, open(os.path.join(VERIF, "MANIFEST.json"), "w"), indent=1)
print("claimed:", [c["property_id"] for c in checks])
