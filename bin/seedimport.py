#!/usr/bin/env python3
"""seedimport.py <P>-<round> ... : copy /tmp/seed/<P>-<round>/out/<k> to seeded/_incoming/<P>/<next free n>"""
import os, shutil, sys
INC = os.path.join(os.path.dirname(os.path.dirname(os.path.abspath(__file__))), "seeded", "_incoming")
for tag in sys.argv[1:]:
    prop = tag.split("-")[0]
    src = "/tmp/seed/%s/out" % tag
    for k in sorted(os.listdir(src)):
        sd = os.path.join(src, k)
        if not os.path.isfile(os.path.join(sd, "patch.diff")):
            continue
        pd = os.path.join(INC, prop)
        os.makedirs(pd, exist_ok=True)
        n = 1
        while os.path.exists(os.path.join(pd, str(n))):
            n += 1
        shutil.copytree(sd, os.path.join(pd, str(n)))
        open(os.path.join(pd, str(n), "origin.txt"), "w").write("seeding agent %s change %s\n" % (tag, k))
        print(os.path.join(pd, str(n)))
