#!/usr/bin/env python3
"""Move validated seeded changes from seeded/_incoming/Cxx/N to seeded/Cxx-N/ with a meta.json
(which property it breaks, what it needs to manifest, what was run, which checks catch it)."""
import json, os, re, shutil, sys

VERIF = os.path.dirname(os.path.dirname(os.path.abspath(__file__)))
INC = os.path.join(VERIF, "seeded", "_incoming")
NOTES = {}          # filled from the command line: "C05/2=text"


def needs_of(readme):
    """the README section that says what the change needs in order to manifest"""
    txt = open(readme).read() if os.path.exists(readme) else ""
    m = re.search(r"(?is)(what it needs[^\n]*\n.*?)(?:\n#+ |\n\*\*[A-Z]|\Z)", txt)
    if m:
        return " ".join(m.group(1).split())[:900]
    m = re.search(r"(?is)(needs?[^\n]{0,40}:?[^\n]*\n(?:.*\n){0,8})", txt)
    return " ".join((m.group(1) if m else txt[:600]).split())[:900]


def main():
    for spec in sys.argv[1:]:
        k, _, v = spec.partition("=")
        NOTES[k] = v
    index = []
    for prop in sorted(os.listdir(INC)):
        pd = os.path.join(INC, prop)
        if not os.path.isdir(pd):
            continue
        for n in sorted(os.listdir(pd)):
            sd = os.path.join(pd, n)
            rj = os.path.join(sd, "result.json")
            if not os.path.isdir(sd) or not os.path.exists(rj):
                continue
            res = json.load(open(rj))
            key = "%s/%s" % (prop, n)
            det = json.load(open(os.path.join(sd, "detect.json"))) if os.path.exists(os.path.join(sd, "detect.json")) else {}
            caught = sorted(p for p, v in det.items() if isinstance(v, dict) and v.get("rc") == 1)
            missed = sorted(p for p, v in det.items() if isinstance(v, dict) and v.get("rc") == 0)
            entry = {"seed": key, "status": res.get("status"), "caught_by": caught, "not_caught_by": missed, "note": NOTES.get(key, "")}
            index.append(entry)
            if res.get("status") != "confirmed":
                continue
            dst = os.path.join(VERIF, "seeded", "%s-%s" % (prop, n))
            shutil.rmtree(dst, ignore_errors=True)
            os.makedirs(dst)
            for root, _, files in os.walk(sd):
                for f in files:
                    if f in ("result.json", "detect.json", "suite.txt") or f.endswith(".log"):
                        continue
                    rel = os.path.relpath(os.path.join(root, f), sd)
                    os.makedirs(os.path.dirname(os.path.join(dst, rel)), exist_ok=True)
                    shutil.copy(os.path.join(root, f), os.path.join(dst, rel))
            meta = {
                "property": prop,
                "breaks": open(os.path.join(sd, "README.md")).read()[:1200] if os.path.exists(os.path.join(sd, "README.md")) else "",
                "needs_to_manifest": needs_of(os.path.join(sd, "README.md")),
                "origin": "written by an independent sub-agent that was given only the property text and a scratch worktree"
                          + ("; patch ported by hand onto the repaired tree (the original is patch.orig.diff)" if os.path.exists(os.path.join(sd, "patch.orig.diff")) else ""),
                "validated": {
                    "repo_head": res.get("repo_head"), "at": res.get("at"),
                    "demo_files": res.get("demo_files"), "demo_commands": res.get("demo_cmds"),
                    "demo_exit_on_unchanged_tree": res.get("demo_unchanged_rc"),
                    "demo_exit_with_change": res.get("demo_patched_rc"),
                    "builds": res.get("builds"),
                    "existing_suite_failures_with_change": res.get("suite_failed_tests"),
                    "note": "the four offline tests (TestNewClient, TestStatsd_*, TestJoin) fail on the unchanged tree too; TestTimeout is load-flaky on the unchanged tree",
                },
                "checks_run_against_it": {p: {"exit": v.get("rc"), "lines": v.get("lines")} for p, v in det.items() if isinstance(v, dict)},
                "caught_by": caught,
                "note": NOTES.get(key, ""),
            }
            json.dump(meta, open(os.path.join(dst, "meta.json"), "w"), indent=1)
    json.dump(index, open(os.path.join(VERIF, "seeded", "INDEX.json"), "w"), indent=1)
    for e in index:
        print(e["seed"], e["status"], "caught:", ",".join(e["caught_by"]) or "-", "missed:", ",".join(e["not_caught_by"]) or "-", e["note"][:60])


if __name__ == "__main__":
    main()
