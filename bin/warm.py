#!/usr/bin/env python3
"""build every harness once so later checks hit a warm Go build cache"""
import os, sys, importlib, glob
sys.path.insert(0, os.path.dirname(os.path.abspath(__file__)))
import vcore
mods = sorted(os.path.basename(f)[:-3] for f in glob.glob(os.path.join(vcore.VERIF, "bin", "gens", "c[0-9]*.py")))
for m in mods:
    mod = importlib.import_module("gens." + m)
    try:
        ov = vcore.write_overlay(getattr(mod, "CONST_GROUPS", []))
        vcore.regen_consts(ov, getattr(mod, "CONST_GROUPS", []))
        vcore.go_build(ov, mod.HARNESS, os.path.join(vcore.WORK, "bin", mod.HARNESS))
        os.remove(ov)
        print("warmed", m)
    except Exception as e:
        print("warm failed", m, e)
