#!/usr/bin/env python3
"""Validate seeded changes and run the checks against them.

  seedcheck.py validate <seeddir> ...   : in a scratch worktree of /repo: demo passes on the unchanged tree,
                                          patch applies and builds, demo fails with it, existing suite still passes
  seedcheck.py detect <verifcopy> <seeddir> ... : apply the patch to a scratch worktree and run
                                          `VERIF_REPO=<wt> <verifcopy>/check <prop> quick` (and any extra checks listed)
Results are written to <seeddir>/result.json."""
import json, os, re, shutil, subprocess, sys, time

ALLOWED_FAIL = {"TestNewClient", "TestStatsd_BadSnapshot", "TestStatsd_Configure", "TestJoin", "TestTimeout"}
ENV = dict(os.environ, GOFLAGS="-mod=mod", GOPROXY="off")
for k in ("GOTOOLCHAIN", "GOSUMDB"):
    ENV.pop(k, None)


def sh(cmd, cwd, timeout=900, env=None):
    try:
        p = subprocess.run(cmd, cwd=cwd, shell=isinstance(cmd, str), env=env or ENV, stdout=subprocess.PIPE, stderr=subprocess.STDOUT, timeout=timeout)
        return p.returncode, p.stdout.decode("utf-8", "replace")
    except subprocess.TimeoutExpired as e:
        return 124, (e.stdout or b"").decode("utf-8", "replace") + "\nTIMEOUT"


def worktree(tag):
    wt = "/tmp/seedcheck/wt-" + tag
    subprocess.run(["git", "-C", "/repo", "worktree", "remove", "--force", wt], stdout=subprocess.DEVNULL, stderr=subprocess.DEVNULL)
    shutil.rmtree(wt, ignore_errors=True)
    os.makedirs("/tmp/seedcheck", exist_ok=True)
    subprocess.run(["git", "-C", "/repo", "worktree", "add", "--detach", wt, "HEAD"], stdout=subprocess.DEVNULL, stderr=subprocess.DEVNULL, check=True)
    return wt


def drop(wt):
    subprocess.run(["git", "-C", "/repo", "worktree", "remove", "--force", wt], stdout=subprocess.DEVNULL, stderr=subprocess.DEVNULL)
    shutil.rmtree(wt, ignore_errors=True)


def demos(seed):
    """[(source file, destination relative to the repo root)], [run commands]"""
    txt = open(os.path.join(seed, "demo_path.txt")).read()
    files = {}
    for root, _, fs in os.walk(seed):
        for f in fs:
            if f.endswith(".go"):
                files[f] = os.path.join(root, f)
    placed = []
    for m in re.finditer(r"(internal/[\w/.-]+\.go)", txt):
        dst = m.group(1)
        base = os.path.basename(dst)
        if base in files and (files[base], dst) not in placed:
            placed.append((files[base], dst))
    cmds = []
    for ln in txt.splitlines():
        i = ln.find("go test ")
        if i >= 0:
            c = ln[i:].strip().strip("`").strip()
            if c not in cmds:
                cmds.append(c)
    return placed, cmds[:2]


def apply_patch(wt, seed):
    patch = os.path.join(seed, "patch.diff")
    rc, out = sh(["git", "apply", patch], wt)
    if rc != 0:
        rc, out = sh(["git", "apply", "--3way", patch], wt)
    return rc == 0, out


def validate(seed):
    tag = "-".join(seed.rstrip("/").split("/")[-2:])
    res = {"seed": seed, "at": time.strftime("%F %T"), "repo_head": subprocess.check_output(["git", "-C", "/repo", "rev-parse", "--short", "HEAD"]).decode().strip()}
    wt = worktree(tag)
    try:
        placed, cmds = demos(seed)
        res["demo_files"], res["demo_cmds"] = [d for _, d in placed], cmds
        if not placed or not cmds:
            res["status"] = "no-demo-found"
            return res
        for src, dst in placed:
            os.makedirs(os.path.dirname(os.path.join(wt, dst)), exist_ok=True)
            shutil.copy(src, os.path.join(wt, dst))
        rc0, out0 = sh(" && ".join(cmds), wt, timeout=600)
        res["demo_unchanged_rc"] = rc0
        res["demo_unchanged_tail"] = out0[-600:]
        ok, out = apply_patch(wt, seed)
        res["patch_applies"] = ok
        if not ok:
            res["status"] = "patch-does-not-apply"
            res["apply_log"] = out[-800:]
            return res
        rcb, outb = sh("go build ./...", wt)
        res["builds"] = rcb == 0
        rc1, out1 = sh(" && ".join(cmds), wt, timeout=600)
        res["demo_patched_rc"] = rc1
        res["demo_patched_tail"] = out1[-800:]
        # existing suite with the change (demo files removed first)
        for _, dst in placed:
            os.remove(os.path.join(wt, dst))
        rcs, outs = sh("go test -vet=off -count=1 ./internal/... 2>&1 | grep -E '^(--- FAIL|FAIL|panic)' | head -40", wt, timeout=1500)
        failed = set(re.findall(r"--- FAIL: (\w+)", outs))
        res["suite_failed_tests"] = sorted(failed)
        res["suite_ok"] = failed <= ALLOWED_FAIL
        res["suite_tail"] = outs[-600:]
        good = rc0 == 0 and rcb == 0 and rc1 != 0 and res["suite_ok"]
        res["status"] = "confirmed" if good else "not-confirmed"
        return res
    finally:
        drop(wt)
        json.dump(res, open(os.path.join(seed, "result.json"), "w"), indent=1)


def detect(verif, seed, props):
    tag = "det-" + "-".join(seed.rstrip("/").split("/")[-2:])
    wt = worktree(tag)
    out = {}
    try:
        ok, log = apply_patch(wt, seed)
        if not ok:
            return {"error": "patch does not apply"}
        for p in props:
            env = dict(os.environ, VERIF_REPO=wt, VERIF_SHRINK_SECONDS="20")
            t0 = time.time()
            rc, o = sh([os.path.join(verif, "check"), p, "quick"], verif, timeout=1500, env=env)
            lines = [l for l in o.splitlines() if l.startswith(("VIOLATION", "OK ", "KNOWN-FINDING"))]
            out[p] = {"rc": rc, "wall": round(time.time() - t0, 1), "lines": [l[:300] for l in lines]}
            if not lines:
                out[p]["tail"] = o[-800:]
            for l in lines:
                m = re.search(r"replay=(\S+)", l)
                if m and os.path.exists(m.group(1)):
                    out[p].setdefault("replay_head", open(m.group(1)).read()[:1500])
                    break
        return out
    finally:
        drop(wt)


if __name__ == "__main__":
    mode = sys.argv[1]
    if mode == "validate":
        for s in sys.argv[2:]:
            r = validate(s)
            print(s, r.get("status"), "demo0=%s demo1=%s suite=%s" % (r.get("demo_unchanged_rc"), r.get("demo_patched_rc"), r.get("suite_failed_tests")), flush=True)
    elif mode == "detect":
        verif = sys.argv[2]
        for spec in sys.argv[3:]:
            seed, _, props = spec.partition("=")
            props = props.split(",") if props else [seed.rstrip("/").split("/")[-2]]
            r = detect(verif, seed, props)
            json.dump(r, open(os.path.join(seed, "detect.json"), "w"), indent=1)
            print(seed, {p: (v.get("rc"), [l.split(" ")[0] for l in v.get("lines", [])]) if isinstance(v, dict) else v for p, v in r.items()}, flush=True)
